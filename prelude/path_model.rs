// ---- assumed lexical model of std::path (Unix semantics; trusted, sanity-checked against real std
// by tools/path_model_sanity.rs in the thorough tier) ---------------------------------------------
verus! {
pub struct OsName { pub id: u64 }
pub enum Component { Prefix, RootDir, CurDir, ParentDir, Normal(OsName) }

// Path and PathBuf are one stub type: ownership distinctions carry no meaning for the model
pub struct Path { pub filler: u8 }
pub type PathBuf = Path;
pub struct StripPrefixError { pub filler: u8 }

pub uninterp spec fn comps(p: Path) -> Seq<Component>;
pub uninterp spec fn is_abs(p: Path) -> bool;
pub uninterp spec fn join_tail(base: Path, q: Path) -> Seq<Component>;
pub uninterp spec fn path_of_str(s: Seq<char>) -> Path;

pub open spec fn clean(s: Seq<Component>) -> bool {
    forall|i: int| 0 <= i < s.len() ==> (#[trigger] s[i] is Normal || s[i] is CurDir)
}
pub open spec fn no_parent(s: Seq<Component>) -> bool {
    forall|i: int| 0 <= i < s.len() ==> !(#[trigger] s[i] is ParentDir)
}
// p lies lexically inside root: root's components followed only by normal names
pub open spec fn within(p: Path, root: Path) -> bool {
    exists|t: Seq<Component>| #![auto] comps(p) == comps(root) + t && clean(t)
}

pub trait AsPath: Sized {
    spec fn path_spec(self) -> Path;
    #[verifier::external_body]
    fn as_path(self) -> (r: Path) ensures r == self.path_spec() { unimplemented!() }
}
impl AsPath for Path { open spec fn path_spec(self) -> Path { self } }
impl<'a> AsPath for &'a Path { open spec fn path_spec(self) -> Path { *self } }
impl AsPath for String { open spec fn path_spec(self) -> Path { path_of_str(self@) } }
impl<'a> AsPath for &'a String { open spec fn path_spec(self) -> Path { path_of_str(self@) } }
impl<'a> AsPath for &'a str { open spec fn path_spec(self) -> Path { path_of_str(self@) } }

pub struct Components { pub filler: u8 }
impl Components {
    pub uninterp spec fn view(&self) -> Seq<Component>;
    #[verifier::external_body]
    pub fn any<F: FnMut(Component) -> bool>(self, f: F) -> (r: bool)
        requires forall|c: Component| #[trigger] f.requires((c,)),
        ensures
            !r ==> forall|i: int| 0 <= i < self@.len() ==> f.ensures((#[trigger] self@[i],), false),
            r ==> exists|i: int| 0 <= i < self@.len() && f.ensures((#[trigger] self@[i],), true),
    { unimplemented!() }
}

impl Path {
    #[verifier::external_body]
    pub fn new(s: &str) -> (r: &Path) ensures *r == path_of_str(s@) { unimplemented!() }
    #[verifier::external_body]
    pub fn from(s: &str) -> (r: Path) ensures r == path_of_str(s@) { unimplemented!() }
    // Unix: absolute <=> first component is RootDir; a relative path has no RootDir / Prefix at all
    #[verifier::external_body]
    pub fn is_absolute(&self) -> (r: bool)
        ensures
            r == is_abs(*self),
            !r ==> forall|i: int| 0 <= i < comps(*self).len() ==> !(#[trigger] comps(*self)[i] is RootDir || comps(*self)[i] is Prefix),
    { unimplemented!() }
    #[verifier::external_body]
    pub fn components(&self) -> (r: Components) ensures r@ == comps(*self) { unimplemented!() }
    #[verifier::external_body]
    pub fn to_path_buf(&self) -> (r: Path) ensures r == *self { unimplemented!() }
    // join: an absolute argument replaces self; otherwise self's components are followed by the
    // argument's components (std drops interior `.`: every component of the tail is a component of
    // the argument, and the tail is the argument itself when it has no `.`)
    #[verifier::external_body]
    pub fn join<P: AsPath>(&self, p: P) -> (r: Path)
        ensures
            is_abs(p.path_spec()) ==> r == p.path_spec(),
            !is_abs(p.path_spec()) ==> comps(r) == comps(*self) + join_tail(*self, p.path_spec()),
            !is_abs(p.path_spec()) ==> forall|i: int| 0 <= i < join_tail(*self, p.path_spec()).len() ==> comps(p.path_spec()).contains(#[trigger] join_tail(*self, p.path_spec())[i]),
            // derived clause (lemma_join_within proves it from the two clauses above; stated here so that
            // extracted bodies need no in-body hint)
            (!is_abs(p.path_spec()) && clean(comps(p.path_spec()))) ==> within(r, *self),
    { unimplemented!() }
    #[verifier::external_body]
    pub fn strip_prefix<P: AsPath>(&self, base: P) -> (r: Result<&Path, StripPrefixError>)
        ensures r matches Ok(q) ==> comps(*self) == comps(base.path_spec()) + comps(*q)
            && (comps(base.path_spec()).len() > 0 ==> (!is_abs(*q)
                && forall|i: int| 0 <= i < comps(*q).len() ==> !(#[trigger] comps(*q)[i] is RootDir || comps(*q)[i] is Prefix))),
    { unimplemented!() }
}

// checked consequence of the join clause: joining a clean relative path stays within the base
pub proof fn lemma_join_within(base: Path, q: Path, r: Path)
    requires
        comps(r) == comps(base) + join_tail(base, q),
        forall|i: int| 0 <= i < join_tail(base, q).len() ==> comps(q).contains(#[trigger] join_tail(base, q)[i]),
        clean(comps(q)),
    ensures within(r, base),
{
    let t = join_tail(base, q);
    assert forall|i: int| 0 <= i < t.len() implies (#[trigger] t[i] is Normal || t[i] is CurDir) by {
        let c = t[i];
        assert(comps(q).contains(c));
        let j = choose|j: int| 0 <= j < comps(q).len() && comps(q)[j] == c;
        assert(comps(q)[j] is Normal || comps(q)[j] is CurDir);
    }
    assert(clean(t));
}
} // verus!
