// plain-rustc twin of prelude/kernel_model.rs for replay programs (same extracted items)
pub mod serde_json { #[derive(Clone, Debug, PartialEq)] pub struct Value { pub filler: u8 } }
pub use serde_json::Value;
//@@ item crates/rip-kernel/src/lib.rs enum ProviderEventStatus
//@@ item crates/rip-kernel/src/lib.rs enum ToolTaskExecutionMode
//@@ item crates/rip-kernel/src/lib.rs enum ToolTaskStatus
//@@ item crates/rip-kernel/src/lib.rs enum ToolTaskStream
//@@ item crates/rip-kernel/src/lib.rs enum CheckpointAction
//@@ item crates/rip-kernel/src/lib.rs struct CompactionPlannedCutPoint
//@@ item crates/rip-kernel/src/lib.rs struct ContextSelectionCompactionCheckpointV1
//@@ item crates/rip-kernel/src/lib.rs struct ContextSelectionResetV1
//@@ item crates/rip-kernel/src/lib.rs enum EventKind
//@@ item crates/rip-kernel/src/lib.rs struct Event
