// ---- assumed UTF-8 model (trusted; sanity-checked against real std by the replay enumerators) ------
verus! {
pub uninterp spec fn valid(b: Seq<u8>) -> bool;            // b is well-formed UTF-8
pub uninterp spec fn dec(b: Seq<u8>) -> Seq<char>;          // strict decoding of well-formed b
pub uninterp spec fn lossy(b: Seq<u8>) -> Seq<char>;        // String::from_utf8_lossy
pub uninterp spec fn incomplete(t: Seq<u8>) -> bool;        // t is a non-empty proper prefix of one character's encoding

#[verifier::external_body]
pub broadcast proof fn axiom_valid_empty(b: Seq<u8>)
    requires b.len() == 0,
    ensures #[trigger] valid(b),
{}

pub struct Utf8Error { pub filler: u8 }
impl Utf8Error {
    pub uninterp spec fn vut(&self) -> int;
    pub uninterp spec fn elen_none(&self) -> bool;
    #[verifier::external_body]
    pub fn valid_up_to(&self) -> (r: usize) ensures r == self.vut() { unimplemented!() }
    #[verifier::external_body]
    pub fn error_len(&self) -> (r: Option<usize>) ensures (r is None) == self.elen_none() { unimplemented!() }
}

// std::str::from_utf8: Ok iff well-formed; the error reports the longest well-formed prefix and, with
// error_len() == None, that the input ended inside a character (that split point is unique)
#[verifier::external_body]
pub fn from_utf8(b: &[u8]) -> (r: Result<&str, Utf8Error>)
    ensures
        match r {
            Ok(s) => valid(b@) && s@ == dec(b@),
            Err(e) => !valid(b@) && 0 <= e.vut() < b@.len() && valid(b@.subrange(0, e.vut()))
                && (e.elen_none() <==> incomplete(b@.subrange(e.vut(), b@.len() as int)))
                && forall|k: int| (0 <= k < b@.len() && valid(b@.subrange(0, k)) && incomplete(#[trigger] b@.subrange(k, b@.len() as int))) ==> k == e.vut(),
        },
{ unimplemented!() }

pub struct CowStr { pub filler: u8 }
impl CowStr {
    pub uninterp spec fn view(&self) -> Seq<char>;
    #[verifier::external_body]
    pub fn into_owned(self) -> (s: String) ensures s@ == self@ { unimplemented!() }
}
#[verifier::external_body]
pub fn from_utf8_lossy(b: &[u8]) -> (r: CowStr)
    ensures r@ == lossy(b@), valid(b@) ==> r@ == dec(b@),
{ unimplemented!() }

// a page of a well-formed stream that starts on a character boundary: well-formed, or a well-formed
// non-empty prefix followed by the beginning of one more character
pub open spec fn page_ok(b: Seq<u8>) -> bool {
    valid(b) || exists|k: int| 1 <= k < b.len() && valid(b.subrange(0, k)) && incomplete(#[trigger] b.subrange(k, b.len() as int))
}
} // verus!
