// ---- assumed std::string contracts (trusted; vstd models a String as Seq<char> + UTF-8 encoding) ----
verus! {
pub assume_specification[ String::len ](s: &String) -> (r: usize)
    ensures r == vstd::utf8::encode_utf8(s@).len(), r <= isize::MAX as usize;   // allocations never exceed isize::MAX bytes

// std: `String::truncate(n)` does nothing when n >= len and otherwise PANICS unless n lies on a char boundary (documented).
pub assume_specification[ String::truncate ](s: &mut String, new_len: usize)
    requires
        new_len < vstd::utf8::encode_utf8(old(s)@).len() ==> vstd::utf8::is_char_boundary(vstd::utf8::encode_utf8(old(s)@), new_len as int),   // [string.truncate.requires_a_char_boundary_else_panic]
    ensures
        new_len >= vstd::utf8::encode_utf8(old(s)@).len() ==> final(s)@ == old(s)@,
        vstd::utf8::encode_utf8(final(s)@).len() <= new_len || final(s)@ == old(s)@;

// std: `s[a..]` panics iff a > len or a is not on a char boundary.  vstd leaves index_req of
// String/str range indexing unspecified; this axiom states the documented panic condition.
#[verifier::external_body]
pub broadcast proof fn axiom_string_index_from(s: String, r: std::ops::RangeFrom<usize>)
    requires
        r.start <= vstd::utf8::encode_utf8(s@).len(),
        vstd::utf8::is_char_boundary(vstd::utf8::encode_utf8(s@), r.start as int),
    ensures #[trigger] vstd::std_specs::core::IndexSpec::index_req(&s, &r)
{}
} // verus!
// std: `String == str` / `String == &str` compare the character sequences.  vstd leaves eq_spec of these
// impls unspecified; the axioms state it (trusted).
verus! {
#[verifier::external_body]
pub broadcast proof fn axiom_string_eq_str(a: &String, b: &str)
    ensures #[trigger] vstd::std_specs::cmp::PartialEqSpec::<str>::eq_spec(a, b) == (a@ == b@),
{}
#[verifier::external_body]
pub broadcast proof fn axiom_string_eq_str_obeys()
    ensures #[trigger] <String as vstd::std_specs::cmp::PartialEqSpec<str>>::obeys_eq_spec(),
{}
#[verifier::external_body]
pub broadcast proof fn axiom_string_eq_refstr<'a>(a: &String, b: &&'a str)
    ensures #[trigger] vstd::std_specs::cmp::PartialEqSpec::<&'a str>::eq_spec(a, b) == (a@ == b@),
{}
#[verifier::external_body]
pub broadcast proof fn axiom_string_eq_refstr_obeys<'a>()
    ensures #[trigger] <String as vstd::std_specs::cmp::PartialEqSpec<&'a str>>::obeys_eq_spec(),
{}
#[verifier::external_body]
pub broadcast proof fn axiom_string_eq_string(a: &String, b: &String)
    ensures #[trigger] vstd::std_specs::cmp::PartialEqSpec::<String>::eq_spec(a, b) == (a@ == b@),
{}
#[verifier::external_body]
pub broadcast proof fn axiom_string_eq_string_obeys()
    ensures #[trigger] <String as vstd::std_specs::cmp::PartialEqSpec<String>>::obeys_eq_spec(),
{}
#[verifier::external_body]
pub broadcast proof fn axiom_refstring_eq_refstring<'a, 'b>(a: &&'a String, b: &&'b String)
    ensures #[trigger] vstd::std_specs::cmp::PartialEqSpec::<&'b String>::eq_spec(a, b) == (a@ == b@),
{}
#[verifier::external_body]
pub broadcast proof fn axiom_refstring_eq_refstring_obeys<'a, 'b>()
    ensures #[trigger] <&'a String as vstd::std_specs::cmp::PartialEqSpec<&'b String>>::obeys_eq_spec(),
{}
pub broadcast group group_string_eq {
    axiom_refstring_eq_refstring, axiom_refstring_eq_refstring_obeys,
    axiom_string_eq_str, axiom_string_eq_str_obeys, axiom_string_eq_refstr, axiom_string_eq_refstr_obeys,
    axiom_string_eq_string, axiom_string_eq_string_obeys,
}
} // verus!
// Rust: a slice never has more than isize::MAX elements (trusted; vstd only states it after an exec len()).
verus! {
#[verifier::external_body]
pub broadcast proof fn axiom_slice_len_fits<T>(s: &[T])
    ensures #[trigger] s@.len() <= isize::MAX as nat,
{}
} // verus!
