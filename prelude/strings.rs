// ---- assumed std::string contracts (trusted; vstd models a String as Seq<char> + UTF-8 encoding) ----
verus! {
pub assume_specification[ String::len ](s: &String) -> (r: usize)
    ensures r == vstd::utf8::encode_utf8(s@).len(), r <= isize::MAX as usize;   // allocations never exceed isize::MAX bytes

// std: `s[a..]` panics iff a > len or a is not on a char boundary.  vstd leaves index_req of
// String/str range indexing unspecified; this axiom states the documented panic condition.
#[verifier::external_body]
pub broadcast proof fn axiom_string_index_from(s: String, r: std::ops::RangeFrom<usize>)
    requires
        r.start <= vstd::utf8::encode_utf8(s@).len(),
        vstd::utf8::is_char_boundary(vstd::utf8::encode_utf8(s@), r.start as int),
    ensures #[trigger] vstd::std_specs::core::IndexSpec::index_req(&s, &r)
{}
} // verus!
