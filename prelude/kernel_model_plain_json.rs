// plain-rustc kernel model whose serde_json::Value is an enum with the real variant names (for code that matches on JSON values)
pub mod serde_json { #[derive(Clone, Debug, PartialEq)] pub enum Value { Null, Bool(bool), Number(i64), String(String), Array(Vec<Value>), Object(std::collections::BTreeMap<String, Value>) } }
pub use serde_json::Value;
//@@ item crates/rip-kernel/src/lib.rs enum ProviderEventStatus
//@@ item crates/rip-kernel/src/lib.rs enum ToolTaskExecutionMode
//@@ item crates/rip-kernel/src/lib.rs enum ToolTaskStatus
//@@ item crates/rip-kernel/src/lib.rs enum ToolTaskStream
//@@ item crates/rip-kernel/src/lib.rs enum CheckpointAction
//@@ item crates/rip-kernel/src/lib.rs struct CompactionPlannedCutPoint
//@@ item crates/rip-kernel/src/lib.rs struct ContextSelectionCompactionCheckpointV1
//@@ item crates/rip-kernel/src/lib.rs struct ContextSelectionResetV1
//@@ item crates/rip-kernel/src/lib.rs enum EventKind
//@@ item crates/rip-kernel/src/lib.rs struct Event
