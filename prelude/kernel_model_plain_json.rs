// plain-rustc kernel model whose serde_json::Value is an enum with the real variant names (for code that matches on JSON values)
pub mod serde_json { #[derive(Clone, Debug, PartialEq)] pub enum Value { Null, Bool(bool), Number(i64), String(String), Array(Vec<Value>), Object(std::collections::BTreeMap<String, Value>) } }
pub use serde_json::Value;
// the read-only accessors of serde_json::Value that code under replay uses (same names and meanings)
impl Value {
    pub fn get(&self, key: &str) -> Option<&Value> { match self { Value::Object(m) => m.get(key), _ => None } }
    pub fn as_str(&self) -> Option<&str> { match self { Value::String(s) => Some(s.as_str()), _ => None } }
    pub fn as_u64(&self) -> Option<u64> { match self { Value::Number(n) if *n >= 0 => Some(*n as u64), _ => None } }
    pub fn as_i64(&self) -> Option<i64> { match self { Value::Number(n) => Some(*n), _ => None } }
    pub fn as_bool(&self) -> Option<bool> { match self { Value::Bool(b) => Some(*b), _ => None } }
    pub fn as_array(&self) -> Option<&Vec<Value>> { match self { Value::Array(a) => Some(a), _ => None } }
    pub fn as_object(&self) -> Option<&std::collections::BTreeMap<String, Value>> { match self { Value::Object(m) => Some(m), _ => None } }
    pub fn is_null(&self) -> bool { matches!(self, Value::Null) }
}
impl std::fmt::Display for Value { fn fmt(&self, f: &mut std::fmt::Formatter<'_>) -> std::fmt::Result { write!(f, "{:?}", self) } }
//@@ item crates/rip-kernel/src/lib.rs enum ProviderEventStatus
//@@ item crates/rip-kernel/src/lib.rs enum ToolTaskExecutionMode
//@@ item crates/rip-kernel/src/lib.rs enum ToolTaskStatus
//@@ item crates/rip-kernel/src/lib.rs enum ToolTaskStream
//@@ item crates/rip-kernel/src/lib.rs enum CheckpointAction
//@@ item crates/rip-kernel/src/lib.rs struct CompactionPlannedCutPoint
//@@ item crates/rip-kernel/src/lib.rs struct ContextSelectionCompactionCheckpointV1
//@@ item crates/rip-kernel/src/lib.rs struct ContextSelectionResetV1
//@@ item crates/rip-kernel/src/lib.rs enum EventKind
//@@ item crates/rip-kernel/src/lib.rs struct Event
