    //@@ rewrite Path(thread_id): Path<String> ==>> thread_id: String
    //@@ rewrite State(state): State<AppState> ==>> state: AppState
    //@@ rewrite impl IntoResponse ==>> (ret: Response)
    //@@ rewrite (StatusCode::OK, Json(response)).into_response() ==>> ok_response(response)
    //@@ rewrite err.to_ascii_lowercase() ==>> vlower(&err)
    //@@ rewrite err_lower.contains("not_found") ==>> vcontains(&err_lower, "not_found")
