// ---- rip-kernel frame model: extracted mechanically (R1: serde attributes dropped) ----------
// `serde_json::Value` is an opaque stub: no contract ever looks inside a JSON value.
pub mod serde_json {
    use vstd::prelude::*;
    verus! {
    pub struct Value { pub filler: u8 }
    impl Clone for Value {
        fn clone(&self) -> (r: Self) ensures r == *self { Value { filler: self.filler } }
    }
    } // verus!
}
pub use serde_json::Value;
verus! {
//@@ item crates/rip-kernel/src/lib.rs enum ProviderEventStatus
//@@ item crates/rip-kernel/src/lib.rs enum ToolTaskExecutionMode
//@@ item crates/rip-kernel/src/lib.rs enum ToolTaskStatus
//@@ item crates/rip-kernel/src/lib.rs enum ToolTaskStream
//@@ item crates/rip-kernel/src/lib.rs enum CheckpointAction
//@@ item crates/rip-kernel/src/lib.rs struct CompactionPlannedCutPoint
//@@ item crates/rip-kernel/src/lib.rs struct ContextSelectionCompactionCheckpointV1
//@@ item crates/rip-kernel/src/lib.rs struct ContextSelectionResetV1
//@@ item crates/rip-kernel/src/lib.rs enum EventKind
//@@ item crates/rip-kernel/src/lib.rs struct Event
} // verus!
