    //@@ fn crates/ripd/src/continuities.rs ContinuityStore::provider_cursor_status_v1 rules=R9 r7=1,2
    //@@ rewrite #[derive(Clone, PartialEq, Eq)] struct Key { provider: String, endpoint: Option<String>, model: Option<String>, } => ;
    //@@ rewrite HashMap<Key, ProviderCursorStatusCursorV1> = HashMap::new() => KeyMap = KeyMap::new()
    //@@ rewrite by_key.entry(key).or_insert(cursor_row); => by_key.insert_if_absent(key, cursor_row);
    //@@ rewrite by_key.into_values().collect() => by_key.into_values()
    //@@ rewrite cursors.sort_by(|a, b| { ( a.provider.as_str(), a.endpoint.as_deref().unwrap_or(""), a.model.as_deref().unwrap_or(""), ) .cmp(&( b.provider.as_str(), b.endpoint.as_deref().unwrap_or(""), b.model.as_deref().unwrap_or(""), )) }); => vsort_cursors(&mut cursors);
