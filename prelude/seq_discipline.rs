// ---- seq discipline devices (DESIGN.md §3.2, appendix B.1) ------------------------------------
// Timeless facts: uninterpreted, no state argument, they occur only in postconditions of the
// stubs below (never in an axiom, never in a precondition-free lemma).
verus! {
pub uninterp spec fn reserved(stream: Seq<char>, seq: u64) -> bool;   // `seq` is the next free seq of `stream` while the seq lock is held
pub uninterp spec fn appended(stream: Seq<char>, seq: u64) -> bool;   // the truth log accepted a frame (stream, seq)
pub uninterp spec fn advanced(stream: Seq<char>, to: u64) -> bool;    // the counter of `stream` was moved to `to` by +1 after that append
pub uninterp spec fn lineage_frame(stream: Seq<char>, seq: u64, cut: u64, mid: Option<String>) -> bool;   // the truth log accepted a branched/handoff frame (stream, seq) recording (cut, message id)

pub uninterp spec fn offered(stream: Seq<char>, seq: u64) -> bool;   // a frame (stream, seq) was handed to the truth log's appender (whatever the appender answered)
pub uninterp spec fn handoff_has_summary(stream: Seq<char>) -> bool;   // the handoff frame of `stream` carries a summary artifact id

pub struct IoError { pub filler: u8 }

pub struct EventLog { pub filler: u8 }
impl EventLog {
    // effect constraint: a frame may only be appended with the seq reserved for its stream
    #[verifier::external_body]
    pub fn append(&self, e: &Event) -> (r: Result<(), IoError>)
        requires reserved(e.session_id@, e.seq),   // [log.append.requires_reserved]
        ensures
            offered(e.session_id@, e.seq),
            r is Ok ==> appended(e.session_id@, e.seq),
            r is Ok ==> (e.kind matches EventKind::ContinuityBranched { parent_seq, parent_message_id, .. } ==> lineage_frame(e.session_id@, e.seq, parent_seq, parent_message_id)),
            r is Ok ==> (e.kind matches EventKind::ContinuityHandoffCreated { from_seq, from_message_id, summary_artifact_id, .. } ==> (lineage_frame(e.session_id@, e.seq, from_seq, from_message_id) && (summary_artifact_id is Some ==> handoff_has_summary(e.session_id@)))),
    { unimplemented!() }
}

pub struct SeqGuard { pub filler: u8 }
pub struct SeqLockResult { pub filler: u8 }
pub struct SeqMutex { pub filler: u8 }
impl SeqMutex {
    // a fresh guard has an unconstrained view: nothing learnt under an earlier guard survives
    #[verifier::external_body]
    pub fn lock(&self) -> (r: SeqLockResult) { unimplemented!() }
}
impl SeqLockResult {
    #[verifier::external_body]
    pub fn expect(self, msg: &str) -> (g: SeqGuard) ensures g.held() { unimplemented!() }
}
impl SeqGuard {
    pub uninterp spec fn view(&self) -> Map<Seq<char>, u64>;
    pub uninterp spec fn held(&self) -> bool;      // the seq lock is held through this guard (false once the guard was dropped)

    #[verifier::external_body]
    pub fn get(&self, k: &str) -> (r: Option<&u64>)
        ensures match r {
            Some(v) => self@.contains_key(k@) && *v == self@[k@] && reserved(k@, *v) && *v < u64::MAX,
            None => !self@.contains_key(k@),
        },
    { unimplemented!() }

    // the rest of the read-only map surface, so that code using it can still be checked (a value read through a guard that has since
    // been released gives no reservation: only `get` on the guard that is still held reserves)
    #[verifier::external_body]
    pub fn contains_key(&self, k: &str) -> (r: bool) ensures r == self@.contains_key(k@) { unimplemented!() }

    // effect constraint: the counter may be (re)initialised to the reserved value, or moved by
    // exactly +1 after the truth log accepted the frame carrying the old value
    #[verifier::external_body]
    pub fn insert(&mut self, k: String, v: u64) -> (r: Option<u64>)
        requires
            old(self)@.contains_key(k@) ==> (v == old(self)@[k@] || (v == old(self)@[k@] + 1 && appended(k@, old(self)@[k@]))),  // [seq.insert.requires_advance_by_one_after_append]
            // a counter that does not exist yet is initialised to the reserved value, or to the value after the frame that was
            // appended with the reserved value (a new thread: creation frame at the reserved seq 0, counter 1)
            !old(self)@.contains_key(k@) ==> (reserved(k@, v) || (v >= 1 && reserved(k@, (v - 1) as u64) && appended(k@, (v - 1) as u64))),   // [seq.insert.requires_reserved_init]
        ensures
            final(self)@ == old(self)@.insert(k@, v),
            final(self).held() == old(self).held(),
            (old(self)@.contains_key(k@) && v == old(self)@[k@] + 1) ==> advanced(k@, v),
            // what the held guard now stores for the stream is its next free seq (exactly what `get` on this guard would report)
            reserved(k@, v),
    { unimplemented!() }
}
// `drop(guard)`: the lock is released (stand-in, reached through `rewrite?` when the source starts to drop a guard explicitly)
#[verifier::external_body] pub fn vrelease(g: &mut SeqGuard) ensures !final(g).held() { unimplemented!() }
} // verus!
