//@@ item crates/ripd/src/continuities.rs struct ProviderCursorStatusV1Request dropderive=Clone
//@@ item crates/ripd/src/continuities.rs struct ProviderCursorStatusCursorV1
//@@ item crates/ripd/src/continuities.rs struct ProviderCursorStatusV1Response dropderive=Clone
// provider_cursor_status_v1 declares its key struct inside the function (derived Hash) and folds rows through the HashMap entry API, outside
// this Verus: the struct is repeated here, the map is an opaque container with the three operations the function uses (R11 rewrites below);
// what is decided is reachability of writers and termination, neither depends on the container's content except through `len`
pub struct Key { pub provider: String, pub endpoint: Option<String>, pub model: Option<String> }
pub struct KeyMap { pub filler: u8 }
impl KeyMap {
    #[verifier::external_body] pub fn new() -> KeyMap { unimplemented!() }
    #[verifier::external_body] pub fn len(&self) -> usize { unimplemented!() }
    #[verifier::external_body] pub fn insert_if_absent(&mut self, k: Key, v: ProviderCursorStatusCursorV1) { unimplemented!() }
    #[verifier::external_body] pub fn into_values(self) -> Vec<ProviderCursorStatusCursorV1> { unimplemented!() }
}
#[verifier::external_body] pub fn vsort_cursors(v: &mut Vec<ProviderCursorStatusCursorV1>) { unimplemented!() }
