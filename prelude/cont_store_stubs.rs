verus! {

// ---- stubs for everything ContinuityStore's writers call (R8; all in trusted_base) ---------
pub mod io {
    use vstd::prelude::*;
    verus! {
    pub struct Error { pub filler: u8 }
    pub enum ErrorKind { NotFound, Other }
    impl Error {
        #[verifier::external_body]
        pub fn new(kind: ErrorKind, msg: &str) -> Error { unimplemented!() }
    }
    pub type Result<T> = std::result::Result<T, Error>;
    } // verus!
}

#[verifier::external_body]
pub fn vfmt() -> String { unimplemented!() }            // R9: opaque formatted message
#[verifier::external_body]
pub fn now_ms() -> u64 { unimplemented!() }

pub struct Uuid { pub filler: u8 }
impl Uuid {
    #[verifier::external_body]
    pub fn new_v4() -> Uuid { unimplemented!() }
    // trusted: a freshly generated id names a stream that does not exist yet (its next seq is 0)
    #[verifier::external_body]
    pub fn to_string(&self) -> (s: String) ensures reserved(s@, 0) { unimplemented!() }
}

pub struct SendError { pub filler: u8 }
pub struct Sender { pub filler: u8 }
impl Sender {
    #[verifier::external_body]
    pub fn send(&self, e: Event) -> Result<usize, SendError> { unimplemented!() }
}

pub struct ContinuityStreamCache { pub filler: u8 }
impl ContinuityStreamCache {
    #[verifier::external_body]
    pub fn append_best_effort(&self, e: &Event) { unimplemented!() }
    // the same call with the guard it happens under: the sidecar gets its lines in seq order only if they are appended while the seq
    // lock is still held (next-seq recovery after a restart reads the LAST sidecar line)
    #[verifier::external_body]
    pub fn append_best_effort_locked(&self, g: &SeqGuard, e: &Event)
        requires g.held(),      // [sidecar.append.requires_the_seq_lock_is_still_held]
    { unimplemented!() }
    // assumed (cache fidelity is C04/C05 territory): the sidecar tail is the stream's last frame
    #[verifier::external_body]
    pub fn try_read_last_seq(&self, id: &str) -> (r: io::Result<Option<u64>>)
        ensures r matches Ok(Some(l)) ==> l < u64::MAX - 1 && reserved(id@, (l + 1) as u64),
    { unimplemented!() }
}

pub struct IndexGuard { pub workspaces: StrMap, pub continuities: MetaMap }
pub struct IndexLockResult { pub filler: u8 }
pub struct IndexMutex { pub filler: u8 }
impl IndexMutex { #[verifier::external_body] pub fn lock(&self) -> IndexLockResult { unimplemented!() } }
impl IndexLockResult { #[verifier::external_body] pub fn expect(self, msg: &str) -> IndexGuard { unimplemented!() } }
pub struct StrMap { pub filler: u8 }
impl StrMap { #[verifier::external_body] pub fn insert(&mut self, k: String, v: String) -> Option<String> { unimplemented!() } }
pub struct MetaMap { pub filler: u8 }
impl MetaMap { #[verifier::external_body] pub fn insert(&mut self, k: String, v: ContinuityMetaV1) -> Option<ContinuityMetaV1> { unimplemented!() } }
pub struct PathBuf { pub filler: u8 }
#[verifier::external_body]
pub fn index_path(data_dir: &PathBuf) -> PathBuf { unimplemented!() }
#[verifier::external_body]
pub fn save_index(path: &PathBuf, index: &IndexGuard) -> io::Result<()> { unimplemented!() }

//@@ item crates/ripd/src/continuities.rs struct ContinuityMetaV1 dropderive=Clone
//@@ item crates/ripd/src/continuities.rs struct ContinuityRunLink
//@@ item crates/ripd/src/continuities.rs struct ToolSideEffects
//@@ item crates/ripd/src/continuities.rs struct ContextCompiledPayload
//@@ item crates/ripd/src/continuities.rs struct ContextSelectionDecidedPayload
//@@ item crates/ripd/src/continuities.rs struct ProviderCursorUpdatedPayload
//@@ item crates/ripd/src/continuities.rs struct CompactionCheckpointCreatedPayload
//@@ item crates/ripd/src/continuities.rs struct CompactionAutoScheduleDecidedPayload
//@@ item crates/ripd/src/continuities.rs struct JobEndedPayload

pub mod rip_kernel {
    pub(crate) use super::ContextSelectionCompactionCheckpointV1;
    pub(crate) use super::ContextSelectionResetV1;
}

// stub of the store: same field names as the real struct, stub field types
pub struct ContinuityStore {
    pub data_dir: PathBuf,
    pub workspace_root: PathBuf,
    pub event_log: EventLog,
    pub stream_cache: ContinuityStreamCache,
    pub sender: Sender,
    pub index: IndexMutex,
    pub next_seq: SeqMutex,
}

} // verus!
