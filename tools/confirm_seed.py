#!/usr/bin/env python3
"""confirm_seed.py <seed_src_dir> <seed_name> --crates a,b --demo '<cargo test cmd>'
Confirms in a scratch worktree (outside /repo and /verif) that a seeded change compiles, keeps the
existing tests of the named crates green, and that its demonstration fails with the change and
passes without it.  Writes /verif/seeded/<seed_name>/{patch.diff,demo.diff,README.md,meta.json}."""
import argparse, json, os, re, shutil, subprocess, sys, time

KNOWN_FAIL = re.compile(r'pty_|run_task_writes_stdout_and_stderr_logs|list_checkpoints_sorted|grep_reports_unreadable|ls_reports_unreadable_entries|local_authority_recovers_from_stale_lock|pipes_task_applies_cwd_and_env')
WT = '/tmp/wt_confirm'

def sh(cmd, cwd=WT, timeout=3600):
    env = dict(os.environ, CARGO_TARGET_DIR=WT + '/target', CARGO_NET_OFFLINE='true')
    p = subprocess.run(cmd, shell=True, cwd=cwd, capture_output=True, text=True, timeout=timeout, env=env)
    return p.returncode, p.stdout + p.stderr

def failed_tests(out):
    return sorted(set(re.findall(r'^test (\S+) \.\.\. FAILED', out, re.M)))

def main():
    ap = argparse.ArgumentParser()
    ap.add_argument('src'); ap.add_argument('name')
    ap.add_argument('--crates', required=True); ap.add_argument('--demo', required=True)
    ap.add_argument('--property', required=True); ap.add_argument('--needs', default='')
    a = ap.parse_args()
    if not os.path.exists(WT):
        subprocess.run(['git', '-C', '/repo', 'worktree', 'add', '-q', '--detach', WT, 'HEAD'], check=True)
    sh('git checkout -q --detach $(git -C /repo rev-parse HEAD) && git checkout -- . && git clean -fdq -e target')
    log = {}
    rc, out = sh('git apply %s/patch.diff' % a.src)
    assert rc == 0, out
    ok_tests = True
    for c in a.crates.split(','):
        rc, out = sh('cargo test -p %s --offline --no-fail-fast -- --skip pty_ 2>&1 | tail -400' % c)
        ft = [t for t in failed_tests(out) if not KNOWN_FAIL.search(t)]
        compiled = 'error: could not compile' not in out and 'error[E' not in out
        log['tests_with_patch:' + c] = dict(compiled=compiled, unexpected_failures=ft,
                                            results=re.findall(r'^test result: .*$', out, re.M))
        if ft or not compiled:
            ok_tests = False
    demo_diff = os.path.join(a.src, 'demo.diff')
    if os.path.exists(demo_diff):
        rc, out = sh('git apply %s' % demo_diff)
        assert rc == 0, out
    rc1, out1 = sh(a.demo + ' 2>&1 | tail -60')
    demo_fails_with = ('test result: FAILED' in out1 or bool(failed_tests(out1))) and 'could not compile' not in out1
    log['demo_with_patch'] = out1[-1500:]
    rc, out = sh('git apply -R %s/patch.diff' % a.src)
    assert rc == 0, out
    rc2, out2 = sh(a.demo + ' 2>&1 | tail -60')
    demo_passes_without = not failed_tests(out2) and 'test result: ok' in out2
    log['demo_without_patch'] = out2[-800:]
    sh('git checkout -- . && git clean -fdq -e target')
    verdict = ok_tests and demo_fails_with and demo_passes_without
    print(json.dumps(dict(name=a.name, tests_ok=ok_tests, demo_fails_with=demo_fails_with,
                          demo_passes_without=demo_passes_without, confirmed=verdict), indent=1))
    if verdict:
        dst = '/verif/seeded/' + a.name
        os.makedirs(dst, exist_ok=True)
        for f in ('patch.diff', 'demo.diff', 'README.md'):
            if os.path.exists(os.path.join(a.src, f)):
                shutil.copy(os.path.join(a.src, f), dst)
        meta = dict(property=a.property, needs_to_manifest=a.needs,
                    confirmed_at=time.strftime('%Y-%m-%dT%H:%M:%SZ', time.gmtime()),
                    repo_head=subprocess.run(['git', '-C', '/repo', 'rev-parse', 'HEAD'], capture_output=True, text=True).stdout.strip(),
                    ran=dict(existing_tests=['cargo test -p %s --offline --no-fail-fast' % c for c in a.crates.split(',')], demo=a.demo),
                    results=log, detected_by=None)
        json.dump(meta, open(os.path.join(dst, 'meta.json'), 'w'), indent=1)
    else:
        print(json.dumps(log, indent=1)[:6000])
    return 0 if verdict else 1

if __name__ == '__main__':
    sys.exit(main())
