#!/bin/bash
# cs.sh <round dir> <agent> <seedN> <name> <crates> <demo cmd>
cd /verif
python3 tools/confirm_seed.py $1/out_$2/$3 $4 --crates $5 --property ${2:0:3} --demo "$6" --needs "$(grep -i -A4 'needs to manifest\|what it needs\|needs:\|Trigger\|Mechanism' $1/out_$2/$3/README.md | head -5 | tr '\n' ' ' | cut -c1-400)" 2>&1 | grep '"name"\|"confirmed"' | paste - -
