#!/usr/bin/env python3
"""Apply each behaviour-preserving refactoring under a directory to /repo, run the named checks, revert.
A check must never exit 1 on these (0 = still proved, 2 = undecided/lost anchor is acceptable, never an alarm)."""
import subprocess, sys, os, json, glob
REPO = os.environ.get('RIP_REPO', '/repo')      # a snapshot of the repository when run in the background (vp run --with-repo)
HERE = os.path.dirname(os.path.dirname(os.path.abspath(__file__)))
root = os.path.abspath(sys.argv[1]); props = sys.argv[2].split(',') if len(sys.argv) > 2 else None
out = {}
for d in sorted(glob.glob(os.path.join(root, '*/patch.diff'))):
    name = os.path.relpath(os.path.dirname(d), root)
    subprocess.run(['git', '-C', REPO, 'checkout', '--', '.'], check=True)
    r = subprocess.run(['git', '-C', REPO, 'apply', d], capture_output=True, text=True)
    if r.returncode != 0:
        out[name] = 'does not apply: ' + r.stderr[:200]; continue
    files = subprocess.run(['git', '-C', REPO, 'diff', '--name-only'], capture_output=True, text=True).stdout.split()
    res = {}
    try:
        for p in (props or ['C01','C02','C04','C07','C08','C09','C10','C12','C13','C14','C15','C16','C17','C20']):
            c = subprocess.run([os.path.join(HERE, 'check'), p, '--tier', 'quick'], capture_output=True, text=True, cwd=HERE)
            last = [l for l in c.stdout.splitlines() if l.startswith(('VIOLATION', 'UNDECIDED', 'OK', 'KNOWN'))][-3:]
            res[p] = dict(exit=c.returncode, lines=last if c.returncode else [])
    finally:
        subprocess.run(['git', '-C', REPO, 'checkout', '--', '.'], check=True)
    out[name] = dict(files=files, results=res)
    print(name, files, {p: v['exit'] for p, v in res.items()}, flush=True)
    for p, v in res.items():
        if v['exit']:
            print('   ', p, v['lines'], flush=True)
json.dump(out, open(os.path.join(root, 'refactor_results.json'), 'w'), indent=1)
