#!/usr/bin/env python3
"""Print the table of DESIGN.md 0.5 from seeded/*/meta.json (detected_by, written by tools/run_seeds.py)."""
import glob, json, os, re
rows = []
tot = dict(det=0, und=0, miss=0)
for mpath in sorted(glob.glob(os.path.join(os.path.dirname(os.path.dirname(os.path.abspath(__file__))), 'seeded', '*', 'meta.json'))):
    name = os.path.basename(os.path.dirname(mpath))
    d = json.load(open(mpath)).get('detected_by') or {}
    rc = d.get('exit_code')
    obls, replayed = [], False
    for v in d.get('violations', []):
        mm = re.search(r'obligation=(\S+)', v)
        if mm:
            o = mm.group(1)
            if len(o) > 150:
                o = o[:150] + '…'
            if o not in obls:
                obls.append(o)
        if 'no-failing-input-found' not in v:
            replayed = True
    if rc == 1:
        how = 'replayed input' if replayed else 'proof fails'
        tot['det'] += 1
    elif rc == 2:
        how = '**undecided (exit 2)**: ' + re.sub(r'^UNDECIDED property=\S+ ', '', (d.get('undecided') or [''])[0])[:160]
        tot['und'] += 1
    else:
        how = '**not detected**'
        tot['miss'] += 1
    shown = '; '.join('`%s`' % o for o in obls[:2]) + (' …' if len(obls) > 2 else '')
    rows.append('| %s | %s | %s | %s |' % (name, rc, shown, how))
print('| seeded change | exit | failing obligation(s) | how |')
print('|---|---|---|---|')
print('\n'.join(rows))
print()
print('%d kept; %d detected (exit 1), %d undecided (exit 2), %d missed.' % (len(rows), tot['det'], tot['und'], tot['miss']))
