#!/usr/bin/env python3
"""Like run_refactors.py, but each refactoring is checked only against the properties whose units extract something from a file it
touches (what can react to the change at all), and the corpus can be split over several scratch worktrees:
   RIP_REPO=<worktree> tools/run_refactors_touched.py <corpus dir> <k> <n>     # the k-th of n slices
A check must never exit 1 on these (0 = proved or DEGRADED, 2 = undecided is tolerated, never an alarm)."""
import subprocess, sys, os, json, glob, re
REPO = os.environ.get('RIP_REPO', '/repo')
HERE = os.path.dirname(os.path.dirname(os.path.abspath(__file__)))
root = os.path.abspath(sys.argv[1]); k = int(sys.argv[2]) if len(sys.argv) > 2 else 0; n = int(sys.argv[3]) if len(sys.argv) > 3 else 1
# file -> properties
fmap = {}
for u in glob.glob(os.path.join(HERE, 'units', '*')):
    try:
        head = open(os.path.join(u, 'unit.rs')).readline()
    except OSError:
        continue
    m = re.search(r'properties=(\S+)', head)
    props = m.group(1).split(',') if m else []
    for f in glob.glob(os.path.join(u, '*.rs')):
        for l in open(f, encoding='utf-8'):
            t = l.strip()
            if t.startswith('//@@ fn ') or t.startswith('//@@ item ') or t.startswith('//@@ file '):
                fmap.setdefault(t.split()[2], set()).update(props)
    # includes (scaffolds, preludes) are shared: a unit that includes one inherits its files
for u in glob.glob(os.path.join(HERE, 'units', '*')):
    try:
        head = open(os.path.join(u, 'unit.rs')).readline()
    except OSError:
        continue
    m = re.search(r'properties=(\S+)', head); props = m.group(1).split(',') if m else []
    for f in glob.glob(os.path.join(u, '*.rs')):
        for l in open(f, encoding='utf-8'):
            t = l.strip()
            if t.startswith('//@@ include '):
                inc = os.path.join(HERE, t.split()[2])
                if os.path.exists(inc):
                    for l2 in open(inc, encoding='utf-8'):
                        t2 = l2.strip()
                        if t2.startswith('//@@ fn ') or t2.startswith('//@@ item ') or t2.startswith('//@@ file '):
                            fmap.setdefault(t2.split()[2], set()).update(props)
out = {}
names = sorted(glob.glob(os.path.join(root, '*/patch.diff')))
for idx, d in enumerate(names):
    if idx % n != k:
        continue
    name = os.path.relpath(os.path.dirname(d), root)
    subprocess.run(['git', '-C', REPO, 'checkout', '--', '.'], check=True)
    r = subprocess.run(['git', '-C', REPO, 'apply', d], capture_output=True, text=True)
    if r.returncode != 0:
        print(name, 'does not apply:', r.stderr[:160], flush=True); continue
    files = subprocess.run(['git', '-C', REPO, 'diff', '--name-only'], capture_output=True, text=True).stdout.split()
    props = sorted(set().union(*[fmap.get(f, set()) for f in files])) if files else []
    res = {}
    try:
        for p in props:
            c = subprocess.run([os.path.join(HERE, 'check'), p, '--tier', 'quick'], capture_output=True, text=True, cwd=HERE, env=dict(os.environ, RIP_REPO=REPO))
            res[p] = (c.returncode, [l[:200] for l in c.stdout.splitlines() if l.startswith(('VIOLATION', 'UNDECIDED', 'DEGRADED'))][:3])
    finally:
        subprocess.run(['git', '-C', REPO, 'checkout', '--', '.'], check=True)
    print(name, files, {p: v[0] for p, v in res.items()}, flush=True)
    for p, v in res.items():
        if v[0] or v[1]:
            print('   ', p, v[1], flush=True)
