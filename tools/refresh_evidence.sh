#!/bin/bash
# Re-run every quick check on the CLEAN /repo working tree so that the committed evidence files describe the unchanged tree.
set -e
test -z "$(git -C /repo status --porcelain --untracked-files=no)" || { echo "/repo is not clean"; exit 1; }
cd /verif
rc=0
for p in C01 C02 C04 C07 C08 C09 C10 C12 C13 C14 C15 C16 C17 C20; do ./check $p --tier quick | grep -v "^ " | tail -1 || rc=1; done
python3-vt vx/validate.py | tail -1
python3 - <<'PY'
import json,glob
for f in sorted(glob.glob('/verif/evidence/*.json')):
    d=json.load(open(f)); c=d['coverage']
    assert d.get('violations',0)==0 and c.get('obligations')==c.get('discharged') and not c.get('undecided') and not c.get('degraded_to_bounded'), f
print('evidence clean')
PY
