#!/usr/bin/env python3
"""Apply every kept seeded change to /repo (one at a time, always reverted), run the quick check of
its property and record what was reported in seeded/<name>/meta.json (detected_by)."""
import glob, json, os, re, subprocess, sys
REPO = os.environ.get('RIP_REPO', '/repo')      # a snapshot of the repository when run in the background (vp run --with-repo)
HERE = os.path.dirname(os.path.dirname(os.path.abspath(__file__)))
names = sys.argv[1:] or [os.path.basename(os.path.dirname(p)) for p in sorted(glob.glob(HERE + '/seeded/*/patch.diff'))]
assert subprocess.run(['git', '-C', REPO, 'status', '--porcelain', '--untracked-files=no'], capture_output=True, text=True).stdout.strip() == '', '/repo not clean'
summary = []
for n in names:
    d = HERE + '/seeded/' + n
    meta = json.load(open(d + '/meta.json'))
    prop = meta['property']
    try:
        subprocess.run(['git', '-C', REPO, 'apply', d + '/patch.diff'], check=True)
        p = subprocess.run(['./check', prop, '--tier', 'quick'], cwd=HERE, capture_output=True, text=True)
    finally:
        subprocess.run(['git', '-C', REPO, 'checkout', '--', '.'], check=True)
    viol = [l for l in p.stdout.split('\n') if l.startswith('VIOLATION')]
    und = [l for l in p.stdout.split('\n') if l.startswith('UNDECIDED')]
    meta['detected_by'] = dict(check='./check %s --tier quick' % prop, exit_code=p.returncode,
                               violations=[re.sub(r' replay=\S+', '', v) for v in viol], undecided=und[:5],
                               detected=(p.returncode == 1))
    json.dump(meta, open(d + '/meta.json', 'w'), indent=1)
    summary.append((n, p.returncode, len(viol)))
    print(n, 'rc=%d' % p.returncode, 'violations=%d' % len(viol), (und[:1] or [''])[0][:150])
# leave evidence of the unchanged tree behind
for prop in sorted({json.load(open(HERE + '/seeded/%s/meta.json' % n))['property'] for n in names}):
    subprocess.run(['./check', prop, '--tier', 'quick'], cwd=HERE, capture_output=True)
